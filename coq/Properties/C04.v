From SM Require Import Model.Base Model.Glb Proofs.BaseLemmas Proofs.GlbProofs.
Theorem C04_glb : forall (A : Type) (key : A -> pos) (l : list A) (q : pos), sorted key l -> glb_spec key l q (glb key l q).
Proof. exact @glb_correct. Qed.
Print Assumptions C04_glb.
Theorem C04_glb_any_search : forall (A : Type) (key : A -> pos) l q bs, sorted key l -> bs_ok key l q bs -> glb_spec key l q (glb_with key bs l q).
Proof. exact @glb_with_spec. Qed.
Print Assumptions C04_glb_any_search.
Theorem C04_sort : forall (A : Type) (key : A -> pos) (l : list A), sorted key (isort key l) /\ Permutation.Permutation l (isort key l).
Proof. intros. split; [apply isort_sorted | apply isort_perm]. Qed.
Print Assumptions C04_sort.

(* every way of producing a map leaves its tokens ordered *)
From SM Require Import Model.Mappings Model.SourceMap Model.Rewrite Model.Raw Model.Adjust Proofs.FlattenProofs.
Lemma sm_new_sorted f t n s c : sorted tok_key (sm_tokens (sm_new f t n s c)).
Proof. apply isort_sorted. Qed.
Lemma fold_ignore_tokens l : forall m, sm_tokens (fold_left (fun m id => add_to_ignore_list id m) l m) = sm_tokens m.
Proof. induction l as [|x l IH]; intros m; cbn [fold_left]; [reflexivity|]. rewrite IH. reflexivity. Qed.
Theorem C04_sorted_into_sourcemap : forall b, sorted tok_key (sm_tokens (into_sourcemap b)).
Proof. intros b. unfold into_sourcemap. rewrite fold_ignore_tokens. apply isort_sorted. Qed.
Print Assumptions C04_sorted_into_sourcemap.
Theorem C04_sorted_decode : forall r m, decode_regular r = Ok m -> sorted tok_key (sm_tokens m).
Proof.
  intros r m H. unfold decode_regular in H. destruct (decode_mappings _ _ _ _) as [toks|e|p]; cbn [bind] in H; try discriminate.
  inversion H; subst. rewrite fold_ignore_tokens. apply isort_sorted.
Qed.
Print Assumptions C04_sorted_decode.
Theorem C04_sorted_rewrite : forall m o m' mp, rewrite_with_mapping m o = Ok (m', mp) -> sorted tok_key (sm_tokens m').
Proof.
  intros m o m' mp H. unfold rewrite_with_mapping in H. destruct (rewrite_tokens m o (sm_tokens m) _) as [b|e|p]; cbn [bind] in H; try discriminate.
  inversion H; subst. apply C04_sorted_into_sourcemap.
Qed.
Print Assumptions C04_sorted_rewrite.
Theorem C04_sorted_flatten : forall f file secs fm, flatten f file secs = Ok fm -> sorted tok_key (sm_tokens fm).
Proof.
  intros [|f] file secs fm H; [discriminate|]. cbn [flatten] in H.
  match type of H with (do b <- ?g; _) = _ => destruct g as [b|e|p] end; cbn [bind] in H; try discriminate.
  inversion H; subst. apply C04_sorted_into_sourcemap.
Qed.
Print Assumptions C04_sorted_flatten.
Theorem C04_sorted_adjust : forall a b out, adjust_mappings a b = Ok out -> sorted dst_key out.
Proof.
  intros a b out H. unfold adjust_mappings in H. destruct (create_ranges dst_key a); [inversion H; constructor|].
  destruct (sweep _ _) as [o|e|p]; cbn [bind] in H; try discriminate. inversion H; subst. apply isort_sorted.
Qed.
Print Assumptions C04_sorted_adjust.

(* over histories: however a map was obtained -- raw constructor, builder, decoding, and then any sequence of rewrite, flatten,
   adjust_mappings and in-place setters -- its tokens are ordered and every lookup follows the closest-preceding-token rule *)
From SM Require Import Model.Glb Proofs.Histories.
Theorem C04_histories : forall m line col, obtained m ->
  Forall (fun t => is_u32 (t_dc t) = true) (sm_tokens m) -> is_u32 col = true ->
  sorted tok_key (sm_tokens m) /\
  match lookup_token (sm_tokens m) line col with
  | Ok None => forall t, In t (sm_tokens m) -> plt (line, col) (tok_key t)
  | Ok (Some (i, t, _)) => glb_spec tok_key (sm_tokens m) (line, col) (Some (i, t))
  | _ => False
  end.
Proof. exact Histories.C04_histories. Qed.
Print Assumptions C04_histories.
