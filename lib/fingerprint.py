"""fingerprint.py: which functions of /repo/src differ from the tree the model was written against?

The model is hand-written, so a change to a modelled function is exactly the moment the model may have drifted.  For every
`fn` in src/*.rs a fingerprint (hash of its token stream: comments, layout and the cfg(sourcemap_verif) hooks do not count) is
compared with the committed baseline (lib/fingerprints.json, taken from the pinned tree after the fix: commits).  `./check`
uses the answer only to search HARDER (more cases, more seeds) for the properties anchored in the changed files -- never to
report anything by itself: a harmless rewrite changes fingerprints too.

  python3 lib/fingerprint.py --write   regenerate the baseline from /repo's HEAD commit
  changed(repo) -> {file: [function names]}   for the working tree
"""
import hashlib, json, os, subprocess, sys
sys.path.insert(0, os.path.join(os.path.dirname(os.path.abspath(__file__)), "..", "gen"))
from rustconst import tokens, Unsupported

BASE = os.path.join(os.path.dirname(os.path.abspath(__file__)), "fingerprints.json")

def _functions(src):
    """{qualified-ish name: hash} for every fn with a body; items outside functions are hashed per file as '<items>'."""
    try:
        t = tokens(src)
    except Unsupported:
        return {"<file>": hashlib.sha1(src.encode()).hexdigest()}
    # drop `#[cfg(sourcemap_verif)] <statement>;` hooks and #[cfg(test)] modules are kept (they are not library behaviour but harmless)
    out, i, n = {}, 0, len(t)
    covered = [False] * n
    seen = {}
    while i < n:
        if t[i] == ('id', 'fn') and i + 1 < n and t[i + 1][0] == 'id':
            name = t[i + 1][1]; j = i + 2
            while j < n and t[j][1] not in ('{', ';'): j += 1
            if j < n and t[j][1] == '{':
                depth, e = 0, j
                while e < n:
                    if t[e][1] == '{': depth += 1
                    if t[e][1] == '}':
                        depth -= 1
                        if depth == 0: break
                    e += 1
                body = t[i:e + 1]
                text = " ".join(v for _, v in body)
                text = text.replace("# [ cfg ( sourcemap_verif ) ] ", "")
                k = seen.get(name, 0); seen[name] = k + 1
                out["%s#%d" % (name, k) if k else name] = hashlib.sha1(text.encode()).hexdigest()
                for x in range(i, e + 1): covered[x] = True
                i = e + 1; continue
        i += 1
    rest = " ".join(v for (k, v), c in zip(t, covered) if not c)
    out["<items>"] = hashlib.sha1(rest.encode()).hexdigest()
    return out

def of_tree(read):
    """read(name) -> text or None; returns {file: {fn: hash}} for src/*.rs"""
    res = {}
    for f in read("__list__"):
        s = read(f)
        if s is not None: res[f] = _functions(s)
    return res

def _worktree_reader(repo):
    def read(name):
        d = os.path.join(repo, "src")
        if name == "__list__": return sorted(x for x in os.listdir(d) if x.endswith(".rs"))
        try: return open(os.path.join(d, name), encoding="utf-8").read()
        except OSError: return None
    return read

def _head_reader(repo):
    def read(name):
        if name == "__list__":
            r = subprocess.run(["git", "-C", repo, "ls-tree", "--name-only", "HEAD", "src/"], capture_output=True, text=True)
            return sorted(os.path.basename(x) for x in r.stdout.split() if x.endswith(".rs"))
        r = subprocess.run(["git", "-C", repo, "show", "HEAD:src/" + name], capture_output=True, text=True)
        return r.stdout if r.returncode == 0 else None
    return read

def changed(repo):
    """{file: sorted list of function names whose fingerprint differs from the baseline (added, removed or edited)}"""
    try: base = json.load(open(BASE))
    except (OSError, ValueError): return {}
    now = of_tree(_worktree_reader(repo))
    res = {}
    for f in sorted(set(base) | set(now)):
        b, c = base.get(f, {}), now.get(f, {})
        d = sorted(k for k in set(b) | set(c) if b.get(k) != c.get(k))
        if d: res[f] = d
    return res

if __name__ == "__main__":
    repo = os.environ.get("SM_REPO", "/repo")
    if "--write" in sys.argv:
        json.dump(of_tree(_head_reader(repo)), open(BASE, "w"), indent=1, sort_keys=True)
        print("baseline written:", BASE)
    else:
        print(json.dumps(changed(repo), indent=1))
